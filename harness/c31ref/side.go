package c31ref

import (
	"bufio"
	"bytes"
	"crypto/sha256"
	_ "embed"
	"encoding/hex"
	"encoding/json"
	"fmt"
	"io"
	"io/ioutil"
	"os"
	"os/exec"
	"path/filepath"
	"runtime"
	"sort"
	"strings"
	"time"

	"verif/harness/core"
)

//go:embed side_main.go.txt
var sideMain string

const repoDir = "/repo"

// Line is one JSON line printed by the side binary.
type Line struct {
	T     string          `json:"t"`
	Sig   string          `json:"sig"`
	What  string          `json:"what"`
	Pkg   string          `json:"pkg"`
	Name  string          `json:"name"`
	K     string          `json:"k"`
	N     int             `json:"n"`
	Names []string        `json:"names"`
	V     json.RawMessage `json:"v"`
}

// BuildInfo tells how the side binary was obtained (informational, never part of a verdict).
type BuildInfo struct {
	Key         string
	RefCacheHit bool
	BinCacheHit bool
	GenSeconds  float64
	BuildSecs   float64
	Stats       *Stats
}

func goEnv() []string {
	return append(os.Environ(), "GOFLAGS=-mod=mod", "GOPROXY=off", "GOSUMDB=off", "GOTOOLCHAIN=local", "GOWORK=off")
}

// hashTree feeds every *.go / go.mod / go.sum under dir (sorted) into the hash.
func hashTree(h io.Writer, dir string) error {
	var files []string
	err := filepath.Walk(dir, func(p string, fi os.FileInfo, err error) error {
		if err != nil {
			return err
		}
		if fi.IsDir() {
			n := fi.Name()
			if p != dir && (strings.HasPrefix(n, ".") || n == "testdata" || n == "_example") {
				return filepath.SkipDir
			}
			return nil
		}
		n := fi.Name()
		if strings.HasSuffix(n, ".go") && !strings.HasSuffix(n, "_test.go") || n == "go.mod" || n == "go.sum" {
			files = append(files, p)
		}
		return nil
	})
	if err != nil {
		return err
	}
	sort.Strings(files)
	for _, f := range files {
		data, err := ioutil.ReadFile(f)
		if err != nil {
			return err
		}
		fmt.Fprintf(h, "%s\x00%d\x00", f, len(data))
		h.Write(data)
	}
	return nil
}

// hashOverlay feeds the overlay description and the content of every replacement file into the hash.
func hashOverlay(h io.Writer, ovl string) error {
	if ovl == "" {
		h.Write([]byte("no-overlay\x00"))
		return nil
	}
	data, err := ioutil.ReadFile(ovl)
	if err != nil {
		return fmt.Errorf("VERIF_OVERLAY: %v", err)
	}
	h.Write(data)
	var o struct{ Replace map[string]string }
	if err := json.Unmarshal(data, &o); err != nil {
		return fmt.Errorf("VERIF_OVERLAY %s: %v", ovl, err)
	}
	var keys []string
	for k := range o.Replace {
		keys = append(keys, k)
	}
	sort.Strings(keys)
	for _, k := range keys {
		h.Write([]byte(k + "\x00"))
		if o.Replace[k] == "" {
			continue
		}
		b, err := ioutil.ReadFile(o.Replace[k])
		if err != nil {
			return fmt.Errorf("VERIF_OVERLAY %s: %v", ovl, err)
		}
		h.Write(b)
	}
	return nil
}

// refFiles returns the generated package ref for the paths; generation depends on the toolchain's sources
// (GOROOT), the module cache (immutable) and the path list only, so it is cached by those.
func refFiles(paths []string, info *BuildInfo) (map[string]string, error) {
	hs := sha256.New()
	fmt.Fprintf(hs, "%s\x00%s\x00%s\x00%s\x00", GenVersion, runtime.Version(), runtime.GOROOT(), runtime.GOOS+"/"+runtime.GOARCH)
	if gm, err := ioutil.ReadFile(filepath.Join(repoDir, "go.mod")); err == nil {
		hs.Write(gm) // versions of the third-party modules
	}
	for _, p := range paths {
		hs.Write([]byte(p + "\x00"))
	}
	key := hex.EncodeToString(hs.Sum(nil)[:12])
	cdir := filepath.Join(core.VerifDir, ".cache", "c31")
	os.MkdirAll(cdir, 0o755)
	cfile := filepath.Join(cdir, "ref-"+key+".json")
	type cached struct {
		Files map[string]string
		Stats *Stats
	}
	if data, err := ioutil.ReadFile(cfile); err == nil {
		var c cached
		if json.Unmarshal(data, &c) == nil && len(c.Files) == len(paths) {
			info.RefCacheHit = true
			info.Stats = c.Stats
			return c.Files, nil
		}
	}
	t0 := time.Now()
	files, st, err := Generate(paths, filepath.Join(core.VerifDir, "harness"))
	if err != nil {
		return nil, err
	}
	info.GenSeconds = time.Since(t0).Seconds()
	info.Stats = st
	data, _ := json.Marshal(cached{files, st})
	tmp := fmt.Sprintf("%s.%d", cfile, os.Getpid())
	if ioutil.WriteFile(tmp, data, 0o644) == nil {
		os.Rename(tmp, cfile)
	}
	return files, nil
}

// BuildSide generates the reference for paths and builds (or finds in the cache) the side binary that links
// the reference together with gomacro's imports package. The cache key covers the generated sources, every Go
// source of /repo (the binary links gomacro code) and the VERIF_OVERLAY content.
func BuildSide(paths []string) (bin string, info BuildInfo, err error) {
	paths = append([]string(nil), paths...)
	sort.Strings(paths)
	files, err := refFiles(paths, &info)
	if err != nil {
		return "", info, err
	}
	ovl := os.Getenv("VERIF_OVERLAY")
	hs := sha256.New()
	fmt.Fprintf(hs, "%s\x00%s\x00", GenVersion, runtime.Version())
	hs.Write([]byte(sideMain))
	hs.Write([]byte(RefStatic))
	var names []string
	for n := range files {
		names = append(names, n)
	}
	sort.Strings(names)
	for _, n := range names {
		fmt.Fprintf(hs, "%s\x00%d\x00%s", n, len(files[n]), files[n])
	}
	if err := hashTree(hs, repoDir); err != nil {
		return "", info, err
	}
	if err := hashOverlay(hs, ovl); err != nil {
		return "", info, err
	}
	key := hex.EncodeToString(hs.Sum(nil)[:12])
	info.Key = key
	work := filepath.Join(core.VerifDir, "work")
	dir := filepath.Join(work, "c31side-"+key)
	bin = filepath.Join(dir, "c31side.bin")
	if fi, e := os.Stat(bin); e == nil && fi.Mode().IsRegular() {
		info.BinCacheHit = true
		now := time.Now()
		os.Chtimes(dir, now, now)
		return bin, info, nil
	}
	// build in a private directory, then rename: concurrent runs never see a half-written binary
	tmp := fmt.Sprintf("%s.tmp%d", dir, os.Getpid())
	os.RemoveAll(tmp)
	defer os.RemoveAll(tmp)
	if err := os.MkdirAll(filepath.Join(tmp, "ref"), 0o755); err != nil {
		return "", info, err
	}
	gomod := "module c31side\n\ngo 1.18\n\nrequire github.com/cosmos72/gomacro v0.0.0\n\nreplace github.com/cosmos72/gomacro => " + repoDir + "\n"
	ioutil.WriteFile(filepath.Join(tmp, "go.mod"), []byte(gomod), 0o644)
	if sum, e := ioutil.ReadFile(filepath.Join(repoDir, "go.sum")); e == nil {
		ioutil.WriteFile(filepath.Join(tmp, "go.sum"), sum, 0o644)
	}
	ioutil.WriteFile(filepath.Join(tmp, "main.go"), []byte(sideMain), 0o644)
	ioutil.WriteFile(filepath.Join(tmp, "ref", "ref.go"), []byte(RefStatic), 0o644)
	for _, n := range names {
		ioutil.WriteFile(filepath.Join(tmp, "ref", n), []byte(files[n]), 0o644)
	}
	args := []string{"build", "-tags", "verif"}
	if ovl != "" {
		args = append(args, "-overlay", ovl)
	}
	args = append(args, "-o", "c31side.bin", ".")
	t0 := time.Now()
	build := exec.Command("go", args...)
	build.Dir = tmp
	build.Env = goEnv()
	if out, e := build.CombinedOutput(); e != nil {
		o := string(out)
		if len(o) > 6000 {
			o = o[:6000]
		}
		return "", info, fmt.Errorf("c31 side build failed: %v\n%s", e, o)
	}
	info.BuildSecs = time.Since(t0).Seconds()
	os.RemoveAll(filepath.Join(tmp, "go.sum"))
	if e := os.Rename(tmp, dir); e != nil {
		// somebody else finished first (same key = same content): use theirs
		if _, e2 := os.Stat(bin); e2 != nil {
			return "", info, fmt.Errorf("c31 side build: %v", e)
		}
	}
	pruneOld(work, dir)
	return bin, info, nil
}

// pruneOld keeps the 3 most recently used side-binary directories (housekeeping only).
func pruneOld(work, keep string) {
	ents, err := ioutil.ReadDir(work)
	if err != nil {
		return
	}
	type d struct {
		p string
		t time.Time
	}
	var ds []d
	for _, e := range ents {
		if e.IsDir() && strings.HasPrefix(e.Name(), "c31side-") && !strings.Contains(e.Name(), ".tmp") {
			p := filepath.Join(work, e.Name())
			if p != keep {
				ds = append(ds, d{p, e.ModTime()})
			}
		}
	}
	sort.Slice(ds, func(i, j int) bool { return ds[i].t.After(ds[j].t) })
	for i := 2; i < len(ds); i++ {
		os.RemoveAll(ds[i].p)
	}
}

// RunSide runs the side binary (optionally for one package only) and returns its lines.
func RunSide(bin, onlyPkg string) ([]Line, error) {
	var args []string
	if onlyPkg != "" {
		args = append(args, "-pkg", onlyPkg)
	}
	cmd := exec.Command(bin, args...)
	var stdout, stderr bytes.Buffer
	cmd.Stdout = &stdout
	cmd.Stderr = &stderr
	if err := cmd.Run(); err != nil {
		e := stderr.String()
		if len(e) > 4000 {
			e = e[:4000]
		}
		return nil, fmt.Errorf("c31 side binary failed: %v\n%s", err, e)
	}
	var lines []Line
	sc := bufio.NewScanner(&stdout)
	sc.Buffer(make([]byte, 1<<20), 1<<26)
	done := false
	for sc.Scan() {
		var l Line
		if err := json.Unmarshal(sc.Bytes(), &l); err != nil {
			return nil, fmt.Errorf("c31 side binary output: %v: %s", err, sc.Text())
		}
		if l.T == "done" {
			done = true
		}
		lines = append(lines, l)
	}
	if !done {
		return nil, fmt.Errorf("c31 side binary output is truncated (%d lines)", len(lines))
	}
	return lines, nil
}
