// Package c02nat is the native-Go oracle shared by the checks C02 (assignments) and C03
// (conversions): every operator, shift, conversion and wrap-around is computed by compiled Go code
// (generic functions instantiated per basic kind), never by a hand-written model of Go arithmetic.
package c02nat

import (
	"fmt"
	"math"
	"reflect"
	"strconv"
	"unsafe"
)

// Class groups the 17 basic kinds by the operators they support.
type Class int

const (
	Bool Class = iota
	Int
	Uint
	Float
	Complex
	String
)

func (c Class) String() string {
	return [...]string{"bool", "int", "uint", "float", "complex", "string"}[c]
}

// Kind describes one basic kind and carries its natively compiled operations.
type Kind struct {
	Name  string
	RT    reflect.Type
	Class Class
	Bits  int
	Zero  interface{}

	// op applies a binary operator ("+", "-", "*", "/", "%", "&", "|", "^", "&^") with Go's native semantics (may panic).
	op func(op string, x, y interface{}) interface{}
	// shift applies x << n or x >> n where n is a value of any integer kind (may panic on negative n).
	shift func(left bool, x, n interface{}) interface{}
	// small / large value alphabets
	small, large []interface{}
}

type integer interface {
	~int | ~int8 | ~int16 | ~int32 | ~int64 | ~uint | ~uint8 | ~uint16 | ~uint32 | ~uint64 | ~uintptr
}
type float interface{ ~float32 | ~float64 }
type cmplx interface{ ~complex64 | ~complex128 }

func intOp[T integer](op string, x, y T) T {
	switch op {
	case "+":
		return x + y
	case "-":
		return x - y
	case "*":
		return x * y
	case "/":
		return x / y
	case "%":
		return x % y
	case "&":
		return x & y
	case "|":
		return x | y
	case "^":
		return x ^ y
	case "&^":
		return x &^ y
	}
	panic("c02nat: bad integer operator " + op)
}

func floatOp[T float](op string, x, y T) T {
	switch op {
	case "+":
		return x + y
	case "-":
		return x - y
	case "*":
		return x * y
	case "/":
		return x / y
	}
	panic("c02nat: bad float operator " + op)
}

func cmplxOp[T cmplx](op string, x, y T) T {
	switch op {
	case "+":
		return x + y
	case "-":
		return x - y
	case "*":
		return x * y
	case "/":
		return x / y
	}
	panic("c02nat: bad complex operator " + op)
}

// shiftOp: the count keeps its own static type, so that Go's rule for negative signed counts applies natively.
func shiftOp[T integer](left bool, x T, n interface{}) T {
	if left {
		switch c := n.(type) {
		case int:
			return x << c
		case int8:
			return x << c
		case int16:
			return x << c
		case int32:
			return x << c
		case int64:
			return x << c
		case uint:
			return x << c
		case uint8:
			return x << c
		case uint16:
			return x << c
		case uint32:
			return x << c
		case uint64:
			return x << c
		case uintptr:
			return x << c
		}
	} else {
		switch c := n.(type) {
		case int:
			return x >> c
		case int8:
			return x >> c
		case int16:
			return x >> c
		case int32:
			return x >> c
		case int64:
			return x >> c
		case uint:
			return x >> c
		case uint8:
			return x >> c
		case uint16:
			return x >> c
		case uint32:
			return x >> c
		case uint64:
			return x >> c
		case uintptr:
			return x >> c
		}
	}
	panic(fmt.Sprintf("c02nat: bad shift count type %T", n))
}

// intValues returns the boundary alphabet of an integer kind: small ⊂ large.
func intValues[T integer]() (small, large []interface{}) {
	var z T
	bits := int(unsafe.Sizeof(z)) * 8
	m1 := z
	m1-- // -1 or max
	signed := m1 < z
	one := z + 1
	var min, max T
	if signed {
		min = one << (bits - 1)
		max = ^min
	} else {
		min = 0
		max = m1
	}
	seenS, seenL := map[T]bool{}, map[T]bool{}
	addS := func(v T) {
		if !seenS[v] {
			seenS[v] = true
			small = append(small, v)
		}
	}
	addL := func(v T) {
		if !seenL[v] {
			seenL[v] = true
			large = append(large, v)
		}
	}
	// small: 0 ±1 2 3 7 8 min min+1 max max-1 and the two middle powers of two
	for _, v := range []T{0, 1, m1, 2, 3, 7, 8, min, min + 1, max, max - 1, one << (bits / 2), one << (bits - 2), z - (one << (bits - 2))} {
		addS(v)
	}
	if bits == 8 {
		// all 256 values
		for i := 0; i < 256; i++ {
			addL(min + T(i))
		}
	} else {
		for _, v := range small {
			addL(v.(T))
		}
		for _, v := range []T{64, 100, z - 100, 5, z - 3, z - 7, 10} {
			addL(v)
		}
		for k := 1; k < bits; k++ {
			p := one << k
			addL(p)
			addL(p - 1)
			addL(p + 1)
			if signed {
				addL(z - p)
				addL(z - p + 1)
				addL(z - p - 1)
			}
		}
	}
	return
}

func mkInt[T integer](name string) *Kind {
	var z T
	bits := int(unsafe.Sizeof(z)) * 8
	m1 := z
	m1--
	cl := Uint
	if m1 < z {
		cl = Int
	}
	k := &Kind{Name: name, RT: reflect.TypeOf(z), Class: cl, Bits: bits, Zero: z}
	k.op = func(op string, x, y interface{}) interface{} { return intOp(op, x.(T), y.(T)) }
	k.shift = func(left bool, x, n interface{}) interface{} { return shiftOp(left, x.(T), n) }
	k.small, k.large = intValues[T]()
	return k
}

func mkFloat[T float](name string, bits int, vals []float64, nsmall int) *Kind {
	var z T
	k := &Kind{Name: name, RT: reflect.TypeOf(z), Class: Float, Bits: bits, Zero: z}
	k.op = func(op string, x, y interface{}) interface{} { return floatOp(op, x.(T), y.(T)) }
	for i, v := range vals {
		k.large = append(k.large, T(v))
		if i < nsmall {
			k.small = append(k.small, T(v))
		}
	}
	return k
}

func mkComplex[T cmplx](name string, bits int, mk func(re, im float64) T, parts []float64, nsmall int) *Kind {
	var z T
	k := &Kind{Name: name, RT: reflect.TypeOf(z), Class: Complex, Bits: bits, Zero: z}
	k.op = func(op string, x, y interface{}) interface{} { return cmplxOp(op, x.(T), y.(T)) }
	for i, re := range parts {
		for j, im := range parts {
			k.large = append(k.large, mk(re, im))
			if i < nsmall && j < nsmall {
				k.small = append(k.small, mk(re, im))
			}
		}
	}
	return k
}

// Kinds lists the 17 basic kinds in a fixed order.
var Kinds []*Kind

// ByName finds a kind.
func ByName(name string) *Kind {
	for _, k := range Kinds {
		if k.Name == name {
			return k
		}
	}
	return nil
}

func init() {
	inf := math.Inf(1)
	third32 := float64(float32(1) / 3)
	f32 := []float64{0, 1, -1, 0.5, float64(float32(0.1)), third32, 3, inf, math.NaN(), math.MaxFloat32, // small = first 10
		math.Copysign(0, -1), -inf, -math.MaxFloat32, math.SmallestNonzeroFloat32, 2, 4, 1024, 1 + 1.0/(1<<23), 16777216, 16777217 + 1, -2.5, 1e10, 1e-10, float64(float32(1e-40)), 7}
	f64 := []float64{0, 1, -1, 0.5, 0.1, 1.0 / 3, 3, inf, math.NaN(), math.MaxFloat64,
		math.Copysign(0, -1), -inf, -math.MaxFloat64, math.SmallestNonzeroFloat64, 2, 4, 1024, 1 + 1.0/(1<<52), 9007199254740992, 9007199254740994, -2.5, 1e10, 1e-10, 1e-310, 7, 1e300}
	c64parts := []float64{0, 1, third32, -2.5, inf, math.NaN(), math.Copysign(0, -1), float64(float32(0.1))}
	c128parts := []float64{0, 1, 1.0 / 3, -2.5, inf, math.NaN(), math.Copysign(0, -1), 0.1}
	Kinds = []*Kind{
		{Name: "bool", RT: reflect.TypeOf(false), Class: Bool, Zero: false, small: []interface{}{false, true}, large: []interface{}{false, true}},
		mkInt[int]("int"), mkInt[int8]("int8"), mkInt[int16]("int16"), mkInt[int32]("int32"), mkInt[int64]("int64"),
		mkInt[uint]("uint"), mkInt[uint8]("uint8"), mkInt[uint16]("uint16"), mkInt[uint32]("uint32"), mkInt[uint64]("uint64"), mkInt[uintptr]("uintptr"),
		mkFloat[float32]("float32", 32, f32, 10), mkFloat[float64]("float64", 64, f64, 10),
		mkComplex[complex64]("complex64", 64, func(re, im float64) complex64 { return complex(float32(re), float32(im)) }, c64parts, 4),
		mkComplex[complex128]("complex128", 128, func(re, im float64) complex128 { return complex(re, im) }, c128parts, 4),
		{Name: "string", RT: reflect.TypeOf(""), Class: String, Zero: "",
			small: []interface{}{"", "a", "ab", "é", "\x00"}, large: []interface{}{"", "a", "ab", "é", "\x00", "\xff", "日本", "a longer string, 32 bytes long.."}},
	}
	ByName("string").op = func(op string, x, y interface{}) interface{} {
		if op != "+" {
			panic("c02nat: bad string operator " + op)
		}
		return x.(string) + y.(string)
	}
}

// Values returns the value alphabet of the kind (large=false: the small boundary alphabet).
func (k *Kind) Values(large bool) []interface{} {
	if large {
		return k.large
	}
	return k.small
}

// IsInteger tells whether shifts, %, and bit operators apply.
func (k *Kind) IsInteger() bool { return k.Class == Int || k.Class == Uint }

// Numeric tells whether ++/-- and arithmetic apply.
func (k *Kind) Numeric() bool { return k.Class != Bool && k.Class != String }

// ValidOp tells whether Go defines `x op y` for operands of this kind.
func (k *Kind) ValidOp(op string) bool {
	switch op {
	case "+":
		return k.Class != Bool
	case "-", "*", "/":
		return k.Numeric()
	case "%", "&", "|", "^", "&^", "<<", ">>":
		return k.IsInteger()
	}
	return false
}

// Result of a natively executed operation.
type Result struct {
	Val   interface{}
	Panic interface{} // recovered value, nil if none
}

func guard(f func() interface{}) (res Result) {
	defer func() {
		if r := recover(); r != nil {
			res = Result{Panic: r}
		}
	}()
	return Result{Val: f()}
}

// Op computes x op y natively (wrap-around, division by zero panic).
func (k *Kind) Op(op string, x, y interface{}) Result {
	return guard(func() interface{} { return k.op(op, x, y) })
}

// Shift computes x << n or x >> n natively; n may be of any integer kind.
func (k *Kind) Shift(left bool, x, n interface{}) Result {
	return guard(func() interface{} { return k.shift(left, x, n) })
}

// One returns the value 1 of the kind (numeric kinds only).
func (k *Kind) One() interface{} {
	if k.Class == Complex {
		return reflect.ValueOf(complex128(1)).Convert(k.RT).Interface()
	}
	return reflect.ValueOf(1).Convert(k.RT).Interface()
}

// Lit renders v (a value of this kind) as a Go constant expression of exactly that value when given to a
// variable of this kind; ok=false if no constant denotes v (NaN, ±Inf, -0).
func (k *Kind) Lit(v interface{}) (string, bool) {
	switch k.Class {
	case Bool:
		return strconv.FormatBool(v.(bool)), true
	case String:
		return strconv.Quote(v.(string)), true
	case Int:
		return strconv.FormatInt(reflect.ValueOf(v).Int(), 10), true
	case Uint:
		return strconv.FormatUint(reflect.ValueOf(v).Uint(), 10), true
	case Float:
		return floatLit(reflect.ValueOf(v).Float(), k.Bits)
	case Complex:
		c := reflect.ValueOf(v).Complex()
		re, ok1 := floatLit(real(c), k.Bits/2)
		im, ok2 := floatLit(imag(c), k.Bits/2)
		if !ok1 || !ok2 {
			return "", false
		}
		return "(" + re + " + " + im + "i)", true
	}
	return "", false
}

func floatLit(f float64, bits int) (string, bool) {
	if math.IsNaN(f) || math.IsInf(f, 0) || (f == 0 && math.Signbit(f)) {
		return "", false
	}
	s := strconv.FormatFloat(f, 'g', -1, bits)
	return s, true
}

// IntKinds returns the 11 integer kinds.
func IntKinds() []*Kind {
	var out []*Kind
	for _, k := range Kinds {
		if k.IsInteger() {
			out = append(out, k)
		}
	}
	return out
}

// ShiftCounts returns the shift-count alphabet of an integer kind used as count type.
func (k *Kind) ShiftCounts(large bool) []interface{} {
	cand := []int64{0, 1, 2, 7, 8, 15, 16, 31, 32, 33, 63, 64, 65, 127, 255, -1, -8, math.MinInt64, math.MaxInt64}
	if !large {
		cand = []int64{0, 1, 7, 8, 31, 32, 63, 64, 65, -1, math.MaxInt64}
	}
	seen := map[interface{}]bool{}
	var out []interface{}
	for _, c := range cand {
		var v reflect.Value
		if k.Class == Int {
			// clamp to the kind's range, keep the sign
			lo, hi := -(int64(1) << (k.Bits - 1)), int64(1)<<(k.Bits-1)-1
			if c < lo {
				c = lo
			}
			if c > hi {
				c = hi
			}
			v = reflect.ValueOf(c).Convert(k.RT)
		} else {
			if c < 0 {
				continue
			}
			u := uint64(c)
			if k.Bits < 64 && u > (uint64(1)<<k.Bits)-1 {
				u = (uint64(1) << k.Bits) - 1
			}
			if c == math.MaxInt64 && k.Bits == 64 {
				u = math.MaxUint64
			}
			v = reflect.ValueOf(u).Convert(k.RT)
		}
		i := v.Interface()
		if !seen[i] {
			seen[i] = true
			out = append(out, i)
		}
	}
	return out
}
