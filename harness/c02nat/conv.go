package c02nat

import (
	"math"
	"reflect"
)

// Native conversions T(x): every numeric conversion below is the conversion expression itself,
// compiled by Go for the concrete pair of kinds (generic function instantiated per source kind,
// switch over the destination kind).

type realnum interface{ integer | float }

func convFromReal[S realnum](x S, dst string) interface{} {
	switch dst {
	case "int":
		return int(x)
	case "int8":
		return int8(x)
	case "int16":
		return int16(x)
	case "int32":
		return int32(x)
	case "int64":
		return int64(x)
	case "uint":
		return uint(x)
	case "uint8":
		return uint8(x)
	case "uint16":
		return uint16(x)
	case "uint32":
		return uint32(x)
	case "uint64":
		return uint64(x)
	case "uintptr":
		return uintptr(x)
	case "float32":
		return float32(x)
	case "float64":
		return float64(x)
	}
	return nil
}

// intToString is Go's own string(x) for an integer x of any integer kind (go vet dislikes it; the compiler defines it).
func intToString[S integer](x S) string { return string(x) }

// Conv converts v (a value of the basic kind / string / []byte / []rune named by src) to the kind dst.
// ok=false: Go does not define the result (or the conversion does not exist).
// defined=false with ok=true never happens; callers test Convertible first through go/types.
func Conv(src, dst string, v interface{}) (res interface{}, ok bool) {
	switch x := v.(type) {
	case bool:
		if dst == "bool" {
			return x, true
		}
	case int:
		return convInt(x, dst)
	case int8:
		return convInt(x, dst)
	case int16:
		return convInt(x, dst)
	case int32:
		return convInt(x, dst)
	case int64:
		return convInt(x, dst)
	case uint:
		return convInt(x, dst)
	case uint8:
		return convInt(x, dst)
	case uint16:
		return convInt(x, dst)
	case uint32:
		return convInt(x, dst)
	case uint64:
		return convInt(x, dst)
	case uintptr:
		return convInt(x, dst)
	case float32:
		return convFloat(x, dst)
	case float64:
		return convFloat(x, dst)
	case complex64:
		switch dst {
		case "complex64":
			return x, true
		case "complex128":
			return complex128(x), true
		}
	case complex128:
		switch dst {
		case "complex128":
			return x, true
		case "complex64":
			r := complex64(x)
			if !f32Defined(real(x), real(r)) || !f32Defined(imag(x), imag(r)) {
				return nil, false
			}
			return r, true
		}
	case string:
		switch dst {
		case "string":
			return x, true
		case "[]byte":
			return []byte(x), true
		case "[]rune":
			return []rune(x), true
		}
	case []byte:
		switch dst {
		case "string":
			return string(x), true
		case "[]byte":
			return x, true
		}
	case []rune:
		switch dst {
		case "string":
			return string(x), true
		case "[]rune":
			return x, true
		}
	}
	return nil, false
}

func convInt[S integer](x S, dst string) (interface{}, bool) {
	if dst == "string" {
		return intToString(x), true
	}
	r := convFromReal(x, dst)
	return r, r != nil
}

// f32Defined: converting the float64 x to float32 gave r; the spec defines the result unless a finite x overflowed.
func f32Defined(x float64, r float32) bool {
	return !(math.IsInf(float64(r), 0) && !math.IsInf(x, 0))
}

func convFloat[S float](x S, dst string) (interface{}, bool) {
	k := ByName(dst)
	if k == nil {
		return nil, false
	}
	f := float64(x)
	switch k.Class {
	case Int, Uint:
		// defined only if the truncated value is representable
		if math.IsNaN(f) || math.IsInf(f, 0) {
			return nil, false
		}
		t := math.Trunc(f)
		var lo, hi float64 // lo <= t < hi
		if k.Class == Int {
			lo, hi = -math.Ldexp(1, k.Bits-1), math.Ldexp(1, k.Bits-1)
		} else {
			lo, hi = 0, math.Ldexp(1, k.Bits)
		}
		if t < lo || t >= hi {
			return nil, false
		}
	case Float:
		if k.Bits == 32 {
			r := float32(x)
			if !f32Defined(f, r) {
				return nil, false
			}
			return r, true
		}
	default:
		return nil, false
	}
	r := convFromReal(x, dst)
	return r, r != nil
}

// Zero values etc. for the non-basic conversion operand types.
var (
	TypeBytes = reflect.TypeOf([]byte(nil))
	TypeRunes = reflect.TypeOf([]rune(nil))
)

// StringValues / BytesValues / RunesValues are the operand alphabets of the string-ish types.
func StringValues() []interface{} {
	return []interface{}{"", "a", "ab", "é", "\x00", "\xff", "日本", "a\xffb", "\U0010FFFF", "\xed\xa0\x80", "a string longer than thirty-two bytes, to leave the small-buffer path"}
}

func BytesValues() []interface{} {
	return []interface{}{[]byte(nil), []byte{}, []byte("a"), []byte{0xff}, []byte("é"), []byte("日本語"), []byte{0xed, 0xa0, 0x80}, []byte{'a', 0, 'b'},
		[]byte("a byte slice longer than thirty-two bytes, to leave the small-buffer path")}
}

func RunesValues() []interface{} {
	return []interface{}{[]rune(nil), []rune{}, []rune{'a'}, []rune{'é', '日'}, []rune{-1}, []rune{0xD800}, []rune{0x10FFFF}, []rune{0x110000}, []rune{math.MaxInt32}, []rune{math.MinInt32, 'z'},
		[]rune("a rune slice longer than thirty-two runes, to leave the small-buffer path")}
}
