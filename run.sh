#!/bin/bash
# ./run.sh <ID> quick|thorough   — rebuilds mc from /repo's current working tree (tag verif), then runs the check.
set -u
cd "$(dirname "$0")"
. ./env.sh
ID="$1"; TIER="${2:-quick}"
mkdir -p bin work evidence
OVL=()
if [ -n "${VERIF_OVERLAY:-}" ]; then OVL=(-overlay "$VERIF_OVERLAY"); fi
cp /repo/go.sum harness/go.sum 2>/dev/null
# serialise concurrent builds of the same binary
(
  flock 9
  (cd harness && go build -tags verif "${OVL[@]}" -o ../bin/mc.new ./cmd/mc) || { echo "HARNESS-ERROR: build failed" >&2; exit 3; }
  mv -f bin/mc.new bin/mc.$$ 
) 9>work/.build.lock || exit 3
trap 'rm -f bin/mc.$$' EXIT
VERIF_TIER="$TIER" ./bin/mc.$$ check "$ID" --tier "$TIER"
